//! Small Conway ledger model used by the builder monitors (see /verif/spec/ledger_rules.md).
//! Works on transactions parsed by `crate::cbor` and on a scenario-side UTxO table; shares no code
//! with cardano-serialization-lib.

use crate::cbor::{self, Item, V};
use crate::codec::blake2b256;
use num_bigint::BigInt;
use num_rational::BigRational;
use num_traits::{One, Zero};
use std::collections::{BTreeMap, BTreeSet};

pub type AssetId = (Vec<u8>, Vec<u8>);

#[derive(Clone, Debug, Default, PartialEq)]
pub struct Val {
    pub coin: i128,
    pub assets: BTreeMap<AssetId, i128>,
}

impl Val {
    pub fn coin(c: u64) -> Val {
        Val { coin: c as i128, assets: BTreeMap::new() }
    }
    pub fn add(&mut self, o: &Val) {
        self.coin += o.coin;
        for (k, v) in &o.assets {
            *self.assets.entry(k.clone()).or_insert(0) += *v;
        }
    }
    pub fn add_asset(&mut self, id: AssetId, q: i128) {
        *self.assets.entry(id).or_insert(0) += q;
    }
    pub fn normalized(&self) -> Val {
        Val { coin: self.coin, assets: self.assets.iter().filter(|(_, v)| **v != 0).map(|(k, v)| (k.clone(), *v)).collect() }
    }
    pub fn describe_diff(&self, other: &Val) -> String {
        let (a, b) = (self.normalized(), other.normalized());
        let mut s = String::new();
        if a.coin != b.coin {
            s.push_str(&format!("lovelace {} vs {} (diff {}); ", a.coin, b.coin, a.coin - b.coin));
        }
        let keys: BTreeSet<_> = a.assets.keys().chain(b.assets.keys()).cloned().collect();
        for k in keys {
            let (x, y) = (*a.assets.get(&k).unwrap_or(&0), *b.assets.get(&k).unwrap_or(&0));
            if x != y {
                s.push_str(&format!("asset {}.{} {} vs {}; ", crate::codec::hex(&k.0), crate::codec::hex(&k.1), x, y));
                if s.len() > 400 {
                    break;
                }
            }
        }
        s
    }
}

#[derive(Clone, Debug)]
pub struct UtxoEntry {
    pub txid: Vec<u8>,
    pub ix: u64,
    pub addr: Vec<u8>,
    pub val: Val,
    /// size in bytes of the reference script this output carries (inner script bytes), 0 if none
    pub ref_script_size: u64,
    /// hash of the reference script carried, if any
    pub ref_script_hash: Option<Vec<u8>>,
    /// datum hash the output is locked with (None = no datum or inline datum)
    pub datum_hash: Option<Vec<u8>>,
    pub inline_datum: bool,
}

#[derive(Clone, Debug)]
pub struct Params {
    pub fee_a: u64,
    pub fee_b: u64,
    pub key_deposit: u64,
    pub pool_deposit: u64,
    pub coins_per_byte: u64,
    pub max_value_size: u64,
    pub max_tx_size: u64,
    pub ex_prices: Option<((u64, u64), (u64, u64))>,
    pub ref_script_price: Option<(u64, u64)>,
}

pub struct Tx<'a> {
    pub bytes: &'a [u8],
    pub root: Item,
}

#[derive(Debug)]
pub struct LedgerErr(pub String);

fn e<T>(s: impl Into<String>) -> Result<T, LedgerErr> {
    Err(LedgerErr(s.into()))
}

impl<'a> Tx<'a> {
    pub fn parse(bytes: &'a [u8]) -> Result<Tx<'a>, LedgerErr> {
        let root = cbor::parse(bytes).map_err(|x| LedgerErr(format!("tx not well-formed: {:?}", x)))?;
        match root.as_arr() {
            Some(a) if a.len() == 4 => {}
            _ => return e("tx is not a 4-element array"),
        }
        Ok(Tx { bytes, root })
    }
    pub fn body(&self) -> &Item {
        &self.root.as_arr().unwrap()[0]
    }
    pub fn wits(&self) -> &Item {
        &self.root.as_arr().unwrap()[1]
    }
    pub fn aux(&self) -> &Item {
        &self.root.as_arr().unwrap()[3]
    }
    pub fn field(&self, k: u64) -> Option<&Item> {
        self.body().map_get(k)
    }
    pub fn wfield(&self, k: u64) -> Option<&Item> {
        self.wits().map_get(k)
    }
    pub fn fee(&self) -> Result<u64, LedgerErr> {
        self.field(2).and_then(|x| x.as_u64()).ok_or(LedgerErr("no fee".into()))
    }
    fn input_list(&self, k: u64) -> Result<Vec<(Vec<u8>, u64)>, LedgerErr> {
        let mut out = vec![];
        if let Some(f) = self.field(k) {
            let arr = f.untag(258).as_arr().ok_or(LedgerErr(format!("body[{}] not an array", k)))?;
            for x in arr {
                let p = x.as_arr().ok_or(LedgerErr("input not array".into()))?;
                if p.len() != 2 {
                    return e("input arity");
                }
                out.push((p[0].as_bytes().ok_or(LedgerErr("txid".into()))?.to_vec(), p[1].as_u64().ok_or(LedgerErr("ix".into()))?));
            }
        }
        Ok(out)
    }
    pub fn inputs(&self) -> Result<Vec<(Vec<u8>, u64)>, LedgerErr> {
        self.input_list(0)
    }
    pub fn collateral(&self) -> Result<Vec<(Vec<u8>, u64)>, LedgerErr> {
        self.input_list(13)
    }
    pub fn reference_inputs(&self) -> Result<Vec<(Vec<u8>, u64)>, LedgerErr> {
        self.input_list(18)
    }
    pub fn outputs(&self) -> Result<Vec<&Item>, LedgerErr> {
        Ok(self.field(1).and_then(|x| x.as_arr()).ok_or(LedgerErr("no outputs".into()))?.iter().collect())
    }
    pub fn certs(&self) -> Vec<&Item> {
        self.field(4).map(|f| f.untag(258).as_arr().map(|a| a.iter().collect()).unwrap_or_default()).unwrap_or_default()
    }
    pub fn withdrawals(&self) -> Vec<(Vec<u8>, u64)> {
        self.field(5)
            .and_then(|f| f.as_map())
            .map(|m| m.iter().filter_map(|(k, v)| Some((k.as_bytes()?.to_vec(), v.as_u64()?))).collect())
            .unwrap_or_default()
    }
    pub fn proposals(&self) -> Vec<&Item> {
        self.field(20).map(|f| f.untag(258).as_arr().map(|a| a.iter().collect()).unwrap_or_default()).unwrap_or_default()
    }
    pub fn voters(&self) -> Vec<&Item> {
        self.field(19).and_then(|f| f.as_map()).map(|m| m.iter().map(|(k, _)| k).collect()).unwrap_or_default()
    }
    pub fn mint(&self) -> Result<Val, LedgerErr> {
        let mut v = Val::default();
        if let Some(m) = self.field(9) {
            for (p, assets) in m.as_map().ok_or(LedgerErr("mint not a map".into()))? {
                let pid = p.as_bytes().ok_or(LedgerErr("policy".into()))?.to_vec();
                for (n, q) in assets.as_map().ok_or(LedgerErr("mint assets".into()))? {
                    let name = n.as_bytes().ok_or(LedgerErr("asset name".into()))?.to_vec();
                    v.add_asset((pid.clone(), name), q.as_int().ok_or(LedgerErr("mint qty".into()))?);
                }
            }
        }
        Ok(v)
    }
    pub fn body_hash(&self) -> Vec<u8> {
        blake2b256(self.body().span(self.bytes))
    }
    /// (sum mem, sum steps) over redeemers in witness key 5 (either form)
    pub fn ex_units(&self) -> (u128, u128) {
        let (mut m, mut s) = (0u128, 0u128);
        for (_, _, _, eu) in self.redeemers() {
            m += eu.0 as u128;
            s += eu.1 as u128;
        }
        (m, s)
    }
    /// (tag, index, data item, (mem, steps))
    pub fn redeemers(&self) -> Vec<(u64, u64, &Item, (u64, u64))> {
        let mut out = vec![];
        if let Some(r) = self.wfield(5) {
            match &r.v {
                V::M(es) => {
                    for (k, v) in es {
                        if let (Some(kk), Some(vv)) = (k.as_arr(), v.as_arr()) {
                            if kk.len() == 2 && vv.len() == 2 {
                                let eu = vv[1].as_arr().map(|a| (a[0].as_u64().unwrap_or(0), a[1].as_u64().unwrap_or(0))).unwrap_or((0, 0));
                                out.push((kk[0].as_u64().unwrap_or(99), kk[1].as_u64().unwrap_or(u64::MAX), &vv[0], eu));
                            }
                        }
                    }
                }
                V::A(es) => {
                    for x in es {
                        if let Some(a) = x.as_arr() {
                            if a.len() == 4 {
                                let eu = a[3].as_arr().map(|a| (a[0].as_u64().unwrap_or(0), a[1].as_u64().unwrap_or(0))).unwrap_or((0, 0));
                                out.push((a[0].as_u64().unwrap_or(99), a[1].as_u64().unwrap_or(u64::MAX), &a[2], eu));
                            }
                        }
                    }
                }
                _ => {}
            }
        }
        out
    }
}

/// value of an output item (either wire form)
pub fn output_value(o: &Item) -> Result<Val, LedgerErr> {
    let v = match &o.v {
        V::A(xs) if xs.len() >= 2 => &xs[1],
        V::M(_) => o.map_get(1).ok_or(LedgerErr("output without amount".into()))?,
        _ => return e("output form"),
    };
    value_item(v)
}
pub fn output_value_item(o: &Item) -> Option<&Item> {
    match &o.v {
        V::A(xs) if xs.len() >= 2 => Some(&xs[1]),
        V::M(_) => o.map_get(1),
        _ => None,
    }
}
pub fn output_address(o: &Item) -> Option<Vec<u8>> {
    match &o.v {
        V::A(xs) if !xs.is_empty() => xs[0].as_bytes().map(|b| b.to_vec()),
        V::M(_) => o.map_get(0).and_then(|x| x.as_bytes()).map(|b| b.to_vec()),
        _ => None,
    }
}
pub fn value_item(v: &Item) -> Result<Val, LedgerErr> {
    match &v.v {
        V::U(c) => Ok(Val::coin(*c)),
        V::A(xs) if xs.len() == 2 => {
            let mut out = Val::coin(xs[0].as_u64().ok_or(LedgerErr("coin".into()))?);
            for (p, assets) in xs[1].as_map().ok_or(LedgerErr("multiasset".into()))? {
                let pid = p.as_bytes().ok_or(LedgerErr("policy".into()))?.to_vec();
                for (n, q) in assets.as_map().ok_or(LedgerErr("assets".into()))? {
                    out.add_asset((pid.clone(), n.as_bytes().ok_or(LedgerErr("name".into()))?.to_vec()), q.as_u64().ok_or(LedgerErr("qty".into()))? as i128);
                }
            }
            Ok(out)
        }
        _ => e("value form"),
    }
}

// ------------------------------------------------------------------------------------------------ certificates

#[derive(Clone, Debug, PartialEq)]
pub enum Cred {
    Key(Vec<u8>),
    Script(Vec<u8>),
}

fn cred(it: &Item) -> Option<Cred> {
    let a = it.as_arr()?;
    if a.len() != 2 {
        return None;
    }
    let h = a[1].as_bytes()?.to_vec();
    match a[0].as_u64()? {
        0 => Some(Cred::Key(h)),
        1 => Some(Cred::Script(h)),
        _ => None,
    }
}

pub struct CertInfo {
    pub tag: u64,
    pub deposit: u128,
    pub refund: u128,
    /// credential that must authorise the certificate (None: no witness needed)
    pub auth: Option<Cred>,
    /// additional key hashes that must sign (pool owners)
    pub extra_keys: Vec<Vec<u8>>,
}

pub fn cert_info(c: &Item, p: &Params) -> Result<CertInfo, LedgerErr> {
    let a = c.as_arr().ok_or(LedgerErr("cert not array".into()))?;
    let tag = a.first().and_then(|x| x.as_u64()).ok_or(LedgerErr("cert tag".into()))?;
    let coin_at = |i: usize| -> Result<u128, LedgerErr> { Ok(a.get(i).and_then(|x| x.as_u64()).ok_or(LedgerErr("cert coin".into()))? as u128) };
    let cred_at = |i: usize| -> Result<Cred, LedgerErr> { a.get(i).and_then(cred).ok_or(LedgerErr("cert credential".into())) };
    let key_at = |i: usize| -> Result<Vec<u8>, LedgerErr> { Ok(a.get(i).and_then(|x| x.as_bytes()).ok_or(LedgerErr("cert keyhash".into()))?.to_vec()) };
    let mut ci = CertInfo { tag, deposit: 0, refund: 0, auth: None, extra_keys: vec![] };
    match tag {
        0 => ci.deposit = p.key_deposit as u128,
        1 => {
            ci.refund = p.key_deposit as u128;
            ci.auth = Some(cred_at(1)?);
        }
        2 => ci.auth = Some(cred_at(1)?),
        3 => {
            ci.deposit = p.pool_deposit as u128;
            ci.auth = Some(Cred::Key(key_at(1)?));
            if let Some(owners) = a.get(7) {
                for o in owners.untag(258).as_arr().ok_or(LedgerErr("owners".into()))? {
                    ci.extra_keys.push(o.as_bytes().ok_or(LedgerErr("owner".into()))?.to_vec());
                }
            }
        }
        4 => ci.auth = Some(Cred::Key(key_at(1)?)),
        5 | 6 => {}
        7 => {
            ci.deposit = coin_at(2)?;
            ci.auth = Some(cred_at(1)?);
        }
        8 => {
            ci.refund = coin_at(2)?;
            ci.auth = Some(cred_at(1)?);
        }
        9 | 10 => ci.auth = Some(cred_at(1)?),
        11 | 12 => {
            ci.deposit = coin_at(3)?;
            ci.auth = Some(cred_at(1)?);
        }
        13 => {
            ci.deposit = coin_at(4)?;
            ci.auth = Some(cred_at(1)?);
        }
        14 | 15 => ci.auth = Some(cred_at(1)?),
        16 => {
            ci.deposit = coin_at(2)?;
            ci.auth = Some(cred_at(1)?);
        }
        17 => {
            ci.refund = coin_at(2)?;
            ci.auth = Some(cred_at(1)?);
        }
        18 => ci.auth = Some(cred_at(1)?),
        _ => return e(format!("unknown certificate tag {}", tag)),
    }
    Ok(ci)
}

/// deposits and refunds of a transaction: (deposits, refunds)
pub fn deposits_refunds(tx: &Tx, p: &Params) -> Result<(u128, u128), LedgerErr> {
    let (mut d, mut r) = (0u128, 0u128);
    for c in tx.certs() {
        let ci = cert_info(c, p)?;
        d += ci.deposit;
        r += ci.refund;
    }
    for pr in tx.proposals() {
        d += pr.as_arr().and_then(|a| a.first()).and_then(|x| x.as_u64()).ok_or(LedgerErr("proposal deposit".into()))? as u128;
    }
    Ok((d, r))
}

pub fn find_utxo<'u>(utxos: &'u [UtxoEntry], txid: &[u8], ix: u64) -> Option<&'u UtxoEntry> {
    utxos.iter().find(|u| u.ix == ix && u.txid == txid)
}

/// Conway consumed / produced
pub fn consumed_produced(tx: &Tx, utxos: &[UtxoEntry], p: &Params) -> Result<(Val, Val), LedgerErr> {
    let mut consumed = Val::default();
    let mut produced = Val::default();
    let mut seen = BTreeSet::new();
    for (txid, ix) in tx.inputs()? {
        if !seen.insert((txid.clone(), ix)) {
            continue; // set semantics
        }
        let u = find_utxo(utxos, &txid, ix).ok_or(LedgerErr(format!("input {}#{} not in the scenario's UTxO table", crate::codec::hex(&txid), ix)))?;
        consumed.add(&u.val);
    }
    for (_, c) in tx.withdrawals() {
        consumed.coin += c as i128;
    }
    let (dep, refund) = deposits_refunds(tx, p)?;
    consumed.coin += refund as i128;
    produced.coin += dep as i128;
    let mint = tx.mint()?;
    for (k, q) in &mint.assets {
        if *q > 0 {
            consumed.add_asset(k.clone(), *q);
        } else {
            produced.add_asset(k.clone(), -*q);
        }
    }
    for o in tx.outputs()? {
        produced.add(&output_value(o)?);
    }
    produced.coin += tx.fee()? as i128;
    if let Some(d) = tx.field(22) {
        produced.coin += d.as_u64().ok_or(LedgerErr("donation".into()))? as i128;
    }
    Ok((consumed, produced))
}

// ------------------------------------------------------------------------------------------------ fees

pub fn ref_script_fee(size: u64, price: (u64, u64)) -> BigInt {
    let mut acc = BigRational::zero();
    let mut pr = BigRational::new(BigInt::from(price.0), BigInt::from(price.1.max(1)));
    let mult = BigRational::new(BigInt::from(12), BigInt::from(10));
    let mut n = size;
    while n >= 25_600 {
        acc += &pr * BigRational::from_integer(BigInt::from(25_600));
        pr = &pr * &mult;
        n -= 25_600;
    }
    (acc + pr * BigRational::from_integer(BigInt::from(n))).floor().to_integer()
}

/// Conway minimum fee of the transaction `tx` (as serialized) given the total reference-script bytes
pub fn min_fee(tx: &Tx, p: &Params, ref_script_bytes: u64) -> BigInt {
    let len = tx.bytes.len() as u64;
    let mut fee = BigInt::from(p.fee_a) * BigInt::from(len) + BigInt::from(p.fee_b);
    if let Some(((mn, md), (sn, sd))) = p.ex_prices {
        let (m, s) = tx.ex_units();
        let c = BigRational::new(BigInt::from(mn), BigInt::from(md.max(1))) * BigRational::from_integer(BigInt::from(m))
            + BigRational::new(BigInt::from(sn), BigInt::from(sd.max(1))) * BigRational::from_integer(BigInt::from(s));
        fee += c.ceil().to_integer();
    }
    if let Some(pr) = p.ref_script_price {
        fee += ref_script_fee(ref_script_bytes, pr);
    }
    fee
}

/// total size of reference scripts carried by the UTxO entries named by inputs and reference inputs
pub fn total_ref_script_bytes(tx: &Tx, utxos: &[UtxoEntry]) -> Result<u64, LedgerErr> {
    let mut total = 0u64;
    let mut seen = BTreeSet::new();
    for (txid, ix) in tx.inputs()?.into_iter().chain(tx.reference_inputs()?.into_iter()) {
        if !seen.insert((txid.clone(), ix)) {
            continue;
        }
        if let Some(u) = find_utxo(utxos, &txid, ix) {
            total += u.ref_script_size;
        }
    }
    Ok(total)
}

// ------------------------------------------------------------------------------------------------ addresses

#[derive(Clone, Debug, PartialEq)]
pub enum PayCred {
    Key(Vec<u8>),
    Script(Vec<u8>),
    Byron,
    Unknown,
}

pub fn payment_cred(addr: &[u8]) -> PayCred {
    if addr.is_empty() {
        return PayCred::Unknown;
    }
    let t = addr[0] >> 4;
    match t {
        0..=7 | 14 | 15 => {
            if addr.len() < 29 {
                return PayCred::Unknown;
            }
            let h = addr[1..29].to_vec();
            if t & 1 == 1 {
                PayCred::Script(h)
            } else {
                PayCred::Key(h)
            }
        }
        8 => PayCred::Byron,
        _ => PayCred::Unknown,
    }
}

/// credential of a reward account (header 0xE_/0xF_)
pub fn reward_cred(acct: &[u8]) -> Option<(u8, Cred)> {
    if acct.len() != 29 {
        return None;
    }
    let net = acct[0] & 0x0f;
    match acct[0] >> 4 {
        14 => Some((net, Cred::Key(acct[1..].to_vec()))),
        15 => Some((net, Cred::Script(acct[1..].to_vec()))),
        _ => None,
    }
}

// ------------------------------------------------------------------------------------------------ witnesses needed

#[derive(Default, Debug)]
pub struct Needed {
    /// key hashes that must provide a vkey witness
    pub keys: BTreeSet<Vec<u8>>,
    /// bootstrap addresses (full address bytes) that must provide a bootstrap witness
    pub byron: BTreeSet<Vec<u8>>,
    /// scripts needed: (purpose tag, index under the ledger's pointer rules, script hash)
    pub scripts: Vec<(u64, u64, Vec<u8>)>,
}

/// ledger order of credentials: script hash before key hash, then bytes
fn cred_rank(c: &Cred) -> (u8, Vec<u8>) {
    match c {
        Cred::Script(h) => (0, h.clone()),
        Cred::Key(h) => (1, h.clone()),
    }
}

/// voter sort key: (role, credential rank)
fn voter_key(v: &Item) -> Option<(u8, (u8, Vec<u8>), Cred)> {
    let a = v.as_arr()?;
    let h = a.get(1)?.as_bytes()?.to_vec();
    // wire: 0 cc key, 1 cc script, 2 drep key, 3 drep script, 4 spo key
    let (role, c) = match a.first()?.as_u64()? {
        0 => (0, Cred::Key(h)),
        1 => (0, Cred::Script(h)),
        2 => (1, Cred::Key(h)),
        3 => (1, Cred::Script(h)),
        4 => (2, Cred::Key(h)),
        _ => return None,
    };
    Some((role, cred_rank(&c), c))
}

pub fn needed(tx: &Tx, utxos: &[UtxoEntry], p: &Params) -> Result<Needed, LedgerErr> {
    let mut n = Needed::default();
    // spending inputs, sorted as a set
    let mut ins = tx.inputs()?;
    ins.sort();
    ins.dedup();
    for (i, (txid, ix)) in ins.iter().enumerate() {
        let u = find_utxo(utxos, txid, *ix).ok_or(LedgerErr("input not in table".into()))?;
        match payment_cred(&u.addr) {
            PayCred::Key(h) => {
                n.keys.insert(h);
            }
            PayCred::Script(h) => n.scripts.push((0, i as u64, h)),
            PayCred::Byron => {
                n.byron.insert(u.addr.clone());
            }
            PayCred::Unknown => return e("input with unknown address kind"),
        }
    }
    for (txid, ix) in tx.collateral()? {
        let u = find_utxo(utxos, &txid, ix).ok_or(LedgerErr("collateral not in table".into()))?;
        match payment_cred(&u.addr) {
            PayCred::Key(h) => {
                n.keys.insert(h);
            }
            PayCred::Byron => {
                n.byron.insert(u.addr.clone());
            }
            _ => {}
        }
    }
    // minting policies, sorted bytewise
    let mint = tx.mint()?;
    let mut pols: Vec<Vec<u8>> = mint.assets.keys().map(|k| k.0.clone()).collect();
    if let Some(m) = tx.field(9) {
        // include policies with empty bundles too
        if let Some(mm) = m.as_map() {
            for (k, _) in mm {
                if let Some(b) = k.as_bytes() {
                    pols.push(b.to_vec());
                }
            }
        }
    }
    pols.sort();
    pols.dedup();
    for (i, pid) in pols.iter().enumerate() {
        n.scripts.push((1, i as u64, pid.clone()));
    }
    // certificates in sequence order
    for (i, c) in tx.certs().iter().enumerate() {
        let ci = cert_info(c, p)?;
        match ci.auth {
            Some(Cred::Key(h)) => {
                n.keys.insert(h);
            }
            Some(Cred::Script(h)) => n.scripts.push((2, i as u64, h)),
            None => {}
        }
        for k in ci.extra_keys {
            n.keys.insert(k);
        }
    }
    // withdrawals in reward-account order: network, then credential (script < key), then bytes
    let mut ws: Vec<(u8, (u8, Vec<u8>), Cred)> = vec![];
    for (acct, _) in tx.withdrawals() {
        let (net, c) = reward_cred(&acct).ok_or(LedgerErr("withdrawal key is not a reward account".into()))?;
        ws.push((net, cred_rank(&c), c));
    }
    ws.sort_by(|a, b| (a.0, &a.1).cmp(&(b.0, &b.1)));
    for (i, (_, _, c)) in ws.iter().enumerate() {
        match c {
            Cred::Key(h) => {
                n.keys.insert(h.clone());
            }
            Cred::Script(h) => n.scripts.push((3, i as u64, h.clone())),
        }
    }
    // voters
    let mut vs: Vec<(u8, (u8, Vec<u8>), Cred)> = vec![];
    for v in tx.voters() {
        vs.push(voter_key(v).ok_or(LedgerErr("voter form".into()))?);
    }
    vs.sort_by(|a, b| (a.0, &a.1).cmp(&(b.0, &b.1)));
    for (i, (_, _, c)) in vs.iter().enumerate() {
        match c {
            Cred::Key(h) => {
                n.keys.insert(h.clone());
            }
            Cred::Script(h) => n.scripts.push((4, i as u64, h.clone())),
        }
    }
    // proposals with a guardrail policy (actions 0 and 2)
    for (i, pr) in tx.proposals().iter().enumerate() {
        if let Some(a) = pr.as_arr().and_then(|a| a.get(2)).and_then(|x| x.as_arr()) {
            let pol = match a.first().and_then(|x| x.as_u64()) {
                Some(0) => a.get(3),
                Some(2) => a.get(2),
                _ => None,
            };
            if let Some(h) = pol.and_then(|x| x.as_bytes()) {
                n.scripts.push((5, i as u64, h.to_vec()));
            }
        }
    }
    // required signers
    if let Some(rs) = tx.field(14) {
        for k in rs.untag(258).as_arr().ok_or(LedgerErr("required signers".into()))? {
            n.keys.insert(k.as_bytes().ok_or(LedgerErr("required signer".into()))?.to_vec());
        }
    }
    Ok(n)
}

/// true if the verdict of withdrawal / voter ordering depends on the script-before-key rule
pub fn mixed_cred_order_sensitive(tx: &Tx) -> bool {
    let mut kinds = BTreeSet::new();
    for (acct, _) in tx.withdrawals() {
        if let Some((net, c)) = reward_cred(&acct) {
            kinds.insert((net, matches!(c, Cred::Key(_))));
        }
    }
    let nets: BTreeSet<u8> = kinds.iter().map(|k| k.0).collect();
    if nets.iter().any(|n| kinds.contains(&(*n, true)) && kinds.contains(&(*n, false))) {
        return true;
    }
    let mut vk = BTreeSet::new();
    for v in tx.voters() {
        if let Some((role, _, c)) = voter_key(v) {
            vk.insert((role, matches!(c, Cred::Key(_))));
        }
    }
    let roles: BTreeSet<u8> = vk.iter().map(|k| k.0).collect();
    roles.iter().any(|r| vk.contains(&(*r, true)) && vk.contains(&(*r, false)))
}

// ------------------------------------------------------------------------------------------------ hashes

/// native script hash: blake2b-224(0x00 || cbor); plutus: blake2b-224(lang_tag || bytes)
pub fn script_hash(lang_tag: u8, script_bytes: &[u8]) -> Vec<u8> {
    let mut v = vec![lang_tag];
    v.extend_from_slice(script_bytes);
    crate::codec::blake2b224(&v)
}

/// hashes of scripts present in the witness set: (hash, language tag 0 native / 1,2,3 plutus), with multiplicity
pub fn witness_scripts(tx: &Tx) -> Vec<(Vec<u8>, u8)> {
    let mut out = vec![];
    if let Some(ns) = tx.wfield(1) {
        if let Some(a) = ns.untag(258).as_arr() {
            for s in a {
                out.push((script_hash(0, s.span(tx.bytes)), 0));
            }
        }
    }
    for (key, lang) in [(3u64, 1u8), (6, 2), (7, 3)] {
        if let Some(ps) = tx.wfield(key) {
            if let Some(a) = ps.untag(258).as_arr() {
                for s in a {
                    if let Some(b) = s.as_bytes() {
                        out.push((script_hash(lang, b), lang));
                    }
                }
            }
        }
    }
    out
}

/// language view encoding for the script integrity hash
pub fn language_views(views: &BTreeMap<u8, Vec<i128>>) -> Vec<u8> {
    // entries as (key bytes, value bytes), sorted by canonical order of encoded keys
    let mut entries: Vec<(Vec<u8>, Vec<u8>)> = vec![];
    for (lang, costs) in views {
        let cost_items: Vec<Item> = costs.iter().map(|c| Item::int(*c)).collect();
        match lang {
            1 => {
                // PlutusV1: key = bytes(cbor(0)), value = bytes(cbor(indefinite list))
                let key = cbor::to_vec(&Item::bytes(&cbor::to_vec(&Item::u(0))));
                let list = if cost_items.is_empty() { Item::arr(vec![]).indef() } else { Item::arr(cost_items).indef() };
                let val = cbor::to_vec(&Item::bytes(&cbor::to_vec(&list)));
                entries.push((key, val));
            }
            l => {
                let key = cbor::to_vec(&Item::u((*l - 1) as u64));
                let val = cbor::to_vec(&Item::arr(cost_items));
                entries.push((key, val));
            }
        }
    }
    entries.sort_by(|a, b| cbor::canonical_key_cmp(&a.0, &b.0));
    let mut out = vec![];
    cbor::write_head(&mut out, 5, entries.len() as u64, 0);
    for (k, v) in entries {
        out.extend_from_slice(&k);
        out.extend_from_slice(&v);
    }
    out
}

/// script integrity hash from emitted redeemer bytes, datum bytes and language views
pub fn script_integrity_hash(redeemers: Option<&[u8]>, datums: Option<&[u8]>, views: &BTreeMap<u8, Vec<i128>>) -> Vec<u8> {
    let mut pre = vec![];
    let no_redeemers = redeemers.is_none();
    if no_redeemers && datums.is_some() {
        pre.push(0xa0);
        pre.extend_from_slice(datums.unwrap());
        pre.push(0xa0);
    } else {
        if let Some(r) = redeemers {
            pre.extend_from_slice(r);
        }
        if let Some(d) = datums {
            pre.extend_from_slice(d);
        }
        pre.extend_from_slice(&language_views(views));
    }
    blake2b256(&pre)
}

pub fn min_utxo(coins_per_byte: u64, output_len: u64) -> u128 {
    coins_per_byte as u128 * (160 + output_len as u128)
}

pub fn one() -> BigInt {
    BigInt::one()
}
