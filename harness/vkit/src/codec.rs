//! Own implementations of the text codecs used by the address / key properties:
//! hex, Bech32 (BIP-173), Base58 (bitcoin alphabet), CRC32 (IEEE), variable-length naturals.
//! Hashes go through cryptoxide called directly (trusted third party).

use cryptoxide::blake2b::Blake2b;
use cryptoxide::digest::Digest;

pub fn blake2b(bits: usize, data: &[u8]) -> Vec<u8> {
    let mut h = Blake2b::new(bits / 8);
    h.input(data);
    let mut out = vec![0u8; bits / 8];
    h.result(&mut out);
    out
}
pub fn blake2b256(data: &[u8]) -> Vec<u8> {
    blake2b(256, data)
}
pub fn blake2b224(data: &[u8]) -> Vec<u8> {
    blake2b(224, data)
}
pub fn sha3_256(data: &[u8]) -> Vec<u8> {
    let mut h = cryptoxide::sha3::Sha3_256::new();
    h.input(data);
    let mut out = vec![0u8; 32];
    h.result(&mut out);
    out
}

// ---------------------------------------------------------------- hex
pub fn hex(b: &[u8]) -> String {
    const D: &[u8; 16] = b"0123456789abcdef";
    let mut s = String::with_capacity(b.len() * 2);
    for x in b {
        s.push(D[(x >> 4) as usize] as char);
        s.push(D[(x & 15) as usize] as char);
    }
    s
}
pub fn unhex(s: &str) -> Option<Vec<u8>> {
    let b = s.as_bytes();
    if b.len() % 2 != 0 {
        return None;
    }
    fn d(c: u8) -> Option<u8> {
        match c {
            b'0'..=b'9' => Some(c - b'0'),
            b'a'..=b'f' => Some(c - b'a' + 10),
            b'A'..=b'F' => Some(c - b'A' + 10),
            _ => None,
        }
    }
    let mut out = Vec::with_capacity(b.len() / 2);
    for i in (0..b.len()).step_by(2) {
        out.push(d(b[i])? << 4 | d(b[i + 1])?);
    }
    Some(out)
}

// ---------------------------------------------------------------- crc32 (IEEE 802.3)
pub fn crc32(data: &[u8]) -> u32 {
    let mut crc: u32 = 0xffff_ffff;
    for &b in data {
        crc ^= b as u32;
        for _ in 0..8 {
            let mask = (!(crc & 1)).wrapping_add(1);
            crc = (crc >> 1) ^ (0xedb8_8320 & mask);
        }
    }
    !crc
}

// ---------------------------------------------------------------- base58
const B58: &[u8; 58] = b"123456789ABCDEFGHJKLMNPQRSTUVWXYZabcdefghijkmnopqrstuvwxyz";

pub fn base58_encode(data: &[u8]) -> String {
    let zeros = data.iter().take_while(|&&b| b == 0).count();
    let mut digits: Vec<u8> = Vec::new(); // little endian base58
    for &byte in data {
        let mut carry = byte as u32;
        for d in digits.iter_mut() {
            carry += (*d as u32) << 8;
            *d = (carry % 58) as u8;
            carry /= 58;
        }
        while carry > 0 {
            digits.push((carry % 58) as u8);
            carry /= 58;
        }
    }
    let mut s = String::new();
    for _ in 0..zeros {
        s.push('1');
    }
    for d in digits.iter().rev() {
        s.push(B58[*d as usize] as char);
    }
    s
}

pub fn base58_decode(s: &str) -> Option<Vec<u8>> {
    let zeros = s.bytes().take_while(|&b| b == b'1').count();
    let mut bytes: Vec<u8> = Vec::new(); // little endian base256
    for c in s.bytes() {
        let v = B58.iter().position(|&x| x == c)? as u32;
        let mut carry = v;
        for b in bytes.iter_mut() {
            carry += (*b as u32) * 58;
            *b = (carry & 0xff) as u8;
            carry >>= 8;
        }
        while carry > 0 {
            bytes.push((carry & 0xff) as u8);
            carry >>= 8;
        }
    }
    // strip: leading '1's correspond to zero bytes; the numeric part may have produced none
    let mut out = vec![0u8; zeros];
    // remove high zero bytes of numeric part (there are none by construction except when value is 0)
    while bytes.last() == Some(&0) {
        bytes.pop();
    }
    out.extend(bytes.iter().rev());
    Some(out)
}

// ---------------------------------------------------------------- bech32 (BIP-173)
const B32: &[u8; 32] = b"qpzry9x8gf2tvdw0s3jn54khce6mua7l";

fn polymod(values: &[u8]) -> u32 {
    const GEN: [u32; 5] = [0x3b6a57b2, 0x26508e6d, 0x1ea119fa, 0x3d4233dd, 0x2a1462b3];
    let mut chk: u32 = 1;
    for &v in values {
        let b = chk >> 25;
        chk = (chk & 0x1ffffff) << 5 ^ (v as u32);
        for (i, g) in GEN.iter().enumerate() {
            if (b >> i) & 1 == 1 {
                chk ^= g;
            }
        }
    }
    chk
}
fn hrp_expand(hrp: &str) -> Vec<u8> {
    let mut v: Vec<u8> = hrp.bytes().map(|c| c >> 5).collect();
    v.push(0);
    v.extend(hrp.bytes().map(|c| c & 31));
    v
}
pub fn convert_bits(data: &[u8], from: u32, to: u32, pad: bool) -> Option<Vec<u8>> {
    let mut acc: u32 = 0;
    let mut bits: u32 = 0;
    let mut ret = Vec::new();
    let maxv: u32 = (1 << to) - 1;
    for &v in data {
        if (v as u32) >> from != 0 {
            return None;
        }
        acc = (acc << from) | v as u32;
        bits += from;
        while bits >= to {
            bits -= to;
            ret.push(((acc >> bits) & maxv) as u8);
        }
    }
    if pad {
        if bits > 0 {
            ret.push(((acc << (to - bits)) & maxv) as u8);
        }
    } else if bits >= from || ((acc << (to - bits)) & maxv) != 0 {
        return None;
    }
    Some(ret)
}
/// Encode without any length limit (Cardano uses long Bech32 strings).
pub fn bech32_encode(hrp: &str, data: &[u8]) -> String {
    let d5 = convert_bits(data, 8, 5, true).unwrap();
    bech32_encode_u5(hrp, &d5)
}
pub fn bech32_encode_u5(hrp: &str, d5: &[u8]) -> String {
    let mut values = hrp_expand(hrp);
    values.extend_from_slice(d5);
    values.extend_from_slice(&[0; 6]);
    let pm = polymod(&values) ^ 1;
    let mut s = String::from(hrp);
    s.push('1');
    for d in d5 {
        s.push(B32[*d as usize] as char);
    }
    for i in 0..6 {
        s.push(B32[((pm >> (5 * (5 - i))) & 31) as usize] as char);
    }
    s
}
#[derive(Debug, PartialEq)]
pub enum Bech32Err {
    NoSeparator,
    MixedCase,
    BadChar,
    BadChecksum,
    BadPadding,
    BadHrp,
    TooShort,
}
/// Decode; returns (hrp lowercased, 5-bit groups without checksum)
pub fn bech32_decode_u5(s: &str) -> Result<(String, Vec<u8>), Bech32Err> {
    let has_lower = s.bytes().any(|c| c.is_ascii_lowercase());
    let has_upper = s.bytes().any(|c| c.is_ascii_uppercase());
    if has_lower && has_upper {
        return Err(Bech32Err::MixedCase);
    }
    let s = s.to_ascii_lowercase();
    let pos = s.rfind('1').ok_or(Bech32Err::NoSeparator)?;
    if pos < 1 {
        return Err(Bech32Err::BadHrp);
    }
    if pos + 7 > s.len() {
        return Err(Bech32Err::TooShort);
    }
    let hrp = &s[..pos];
    if hrp.bytes().any(|c| !(33..=126).contains(&c)) {
        return Err(Bech32Err::BadHrp);
    }
    let mut data = Vec::new();
    for c in s[pos + 1..].bytes() {
        let v = B32.iter().position(|&x| x == c).ok_or(Bech32Err::BadChar)?;
        data.push(v as u8);
    }
    let mut values = hrp_expand(hrp);
    values.extend_from_slice(&data);
    if polymod(&values) != 1 {
        return Err(Bech32Err::BadChecksum);
    }
    data.truncate(data.len() - 6);
    Ok((hrp.to_string(), data))
}
pub fn bech32_decode(s: &str) -> Result<(String, Vec<u8>), Bech32Err> {
    let (hrp, d5) = bech32_decode_u5(s)?;
    let d8 = convert_bits(&d5, 5, 8, false).ok_or(Bech32Err::BadPadding)?;
    Ok((hrp, d8))
}

// ---------------------------------------------------------------- variable-length natural (pointer addresses)
pub fn varnat_encode(mut n: u64) -> Vec<u8> {
    let mut out = vec![(n & 0x7f) as u8];
    n >>= 7;
    while n > 0 {
        out.push(((n & 0x7f) | 0x80) as u8);
        n >>= 7;
    }
    out.reverse();
    out
}
/// Decode one var-nat: returns (value as u128 to detect overflow, bytes consumed, minimal?) or None if unterminated
pub fn varnat_decode(b: &[u8]) -> Option<(u128, usize, bool)> {
    let mut v: u128 = 0;
    for (i, &x) in b.iter().enumerate() {
        if i >= 18 {
            // more than 126 bits: certainly overflow; keep scanning for terminator but saturate
            v = u128::MAX;
        } else if v != u128::MAX {
            v = (v << 7) | (x & 0x7f) as u128;
        }
        if x & 0x80 == 0 {
            let minimal = b[0] != 0x80;
            return Some((v, i + 1, minimal));
        }
    }
    None
}

#[cfg(test)]
mod tests {
    use super::*;
    #[test]
    fn crc() {
        assert_eq!(crc32(b"123456789"), 0xcbf43926);
        assert_eq!(crc32(b""), 0);
    }
    #[test]
    fn b58() {
        assert_eq!(base58_encode(b"Hello World!"), "2NEpo7TZRRrLZSi2U");
        assert_eq!(base58_decode("2NEpo7TZRRrLZSi2U").unwrap(), b"Hello World!");
        assert_eq!(base58_encode(&[0, 0, 0x28, 0x7f, 0xb4, 0xcd]), "11233QC4");
        assert_eq!(base58_decode("11233QC4").unwrap(), vec![0, 0, 0x28, 0x7f, 0xb4, 0xcd]);
        assert_eq!(base58_encode(&[]), "");
        assert_eq!(base58_decode("").unwrap(), Vec::<u8>::new());
        assert!(base58_decode("0OIl").is_none());
    }
    #[test]
    fn bech() {
        assert!(bech32_decode_u5("A12UEL5L").is_ok());
        assert!(bech32_decode_u5("a12uel5l").is_ok());
        assert!(bech32_decode_u5("abcdef1qpzry9x8gf2tvdw0s3jn54khce6mua7lmqqqxw").is_ok());
        assert_eq!(bech32_decode_u5("A12uEL5L"), Err(Bech32Err::MixedCase));
        assert_eq!(bech32_decode_u5("a12uel5m"), Err(Bech32Err::BadChecksum));
        let s = bech32_encode("addr_test", &[1, 2, 3, 4, 5, 6, 7]);
        let (h, d) = bech32_decode(&s).unwrap();
        assert_eq!(h, "addr_test");
        assert_eq!(d, vec![1, 2, 3, 4, 5, 6, 7]);
        // BIP-173 segwit vector
        let (h, d5) = bech32_decode_u5("BC1QW508D6QEJXTDG4Y5R3ZARVARY0C5XW7KV8F3T4").unwrap();
        assert_eq!(h, "bc");
        assert_eq!(d5[0], 0);
        let prog = convert_bits(&d5[1..], 5, 8, false).unwrap();
        assert_eq!(hex(&prog), "751e76e8199196d454941c45d1b3a323f1433bd6");
    }
    #[test]
    fn varnat() {
        assert_eq!(varnat_encode(0), vec![0]);
        assert_eq!(varnat_encode(127), vec![0x7f]);
        assert_eq!(varnat_encode(128), vec![0x81, 0x00]);
        assert_eq!(varnat_decode(&[0x81, 0x00]).unwrap(), (128, 2, true));
        assert_eq!(varnat_decode(&[0x80, 0x01]).unwrap(), (1, 2, false));
        assert!(varnat_decode(&[0x80, 0x80]).is_none());
        let e = varnat_encode(u64::MAX);
        assert_eq!(e.len(), 10);
        assert_eq!(varnat_decode(&e).unwrap().0, u64::MAX as u128);
    }
    #[test]
    fn blake() {
        assert_eq!(
            hex(&blake2b256(b"")),
            "0e5751c026e543b2e8ab2eb06099daa1d1e5df47778f7787faab45cdf12fe3a8"
        );
        assert_eq!(hex(&blake2b224(b"")), "836cc68931c2e4e3e838602eca1902591d216837bafddfe6f0c8cb07");
    }
}
