//! Independent CBOR reader / writer (RFC 8949 subset used by the Cardano ledger).
//! Shares no code with cardano-serialization-lib or cbor_event.
//!
//! The reader keeps, for every item, the byte span in the input, the head width actually used,
//! and definite/indefinite flags, so that monitors can talk about *encodings*, not just values.
//! The writer re-emits an item tree exactly as described (so parse → write is the identity on
//! well-formed input), which is what the structure-aware mutators work on.

use std::fmt;

#[derive(Clone, Debug, PartialEq)]
pub enum V {
    /// major 0
    U(u64),
    /// major 1: value is -1 - n
    N(u64),
    /// major 2
    B(Vec<u8>),
    /// major 3 (bytes kept raw; utf8 validity recorded separately)
    T(Vec<u8>),
    /// major 4
    A(Vec<Item>),
    /// major 5
    M(Vec<(Item, Item)>),
    /// major 6
    Tag(u64, Box<Item>),
    /// major 7 simple values (20 false, 21 true, 22 null, 23 undefined, others)
    Simple(u8),
    /// major 7 floats: (width in bytes 2/4/8, raw bits)
    F(u8, u64),
}

#[derive(Clone, Debug, PartialEq)]
pub struct Item {
    pub v: V,
    /// number of extra head bytes used for the argument: 0 (inline), 1, 2, 4, 8.
    /// For indefinite containers/strings this is 0.
    pub w: u8,
    /// indefinite-length array / map / string
    pub indef: bool,
    /// for indefinite strings: (chunk length, head width) of each chunk
    pub chunks: Vec<(usize, u8)>,
    /// [start, end) in the parsed input (0,0 for synthesized items)
    pub start: usize,
    pub end: usize,
}

#[derive(Clone, Debug, PartialEq)]
pub enum CborErr {
    Truncated(usize),
    Reserved(usize),
    UnexpectedBreak(usize),
    BadChunk(usize),
    Trailing(usize),
    TooDeep(usize),
    BadSimple(usize),
}

impl fmt::Display for CborErr {
    fn fmt(&self, f: &mut fmt::Formatter<'_>) -> fmt::Result {
        write!(f, "{:?}", self)
    }
}

pub const MAX_DEPTH: usize = 2000;

pub fn min_width(n: u64) -> u8 {
    if n < 24 {
        0
    } else if n <= 0xff {
        1
    } else if n <= 0xffff {
        2
    } else if n <= 0xffff_ffff {
        4
    } else {
        8
    }
}

struct Rd<'a> {
    b: &'a [u8],
    p: usize,
}

impl<'a> Rd<'a> {
    fn byte(&mut self) -> Result<u8, CborErr> {
        if self.p >= self.b.len() {
            return Err(CborErr::Truncated(self.p));
        }
        let x = self.b[self.p];
        self.p += 1;
        Ok(x)
    }
    fn take(&mut self, n: u64) -> Result<&'a [u8], CborErr> {
        let rem = (self.b.len() - self.p) as u64;
        if n > rem {
            return Err(CborErr::Truncated(self.b.len()));
        }
        let s = &self.b[self.p..self.p + n as usize];
        self.p += n as usize;
        Ok(s)
    }
    /// returns (argument, width) ; width 0xff for indefinite (ai == 31)
    fn arg(&mut self, ai: u8, at: usize) -> Result<(u64, u8), CborErr> {
        match ai {
            0..=23 => Ok((ai as u64, 0)),
            24 => Ok((self.byte()? as u64, 1)),
            25 => {
                let s = self.take(2)?;
                Ok((u16::from_be_bytes([s[0], s[1]]) as u64, 2))
            }
            26 => {
                let s = self.take(4)?;
                Ok((u32::from_be_bytes([s[0], s[1], s[2], s[3]]) as u64, 4))
            }
            27 => {
                let s = self.take(8)?;
                let mut a = [0u8; 8];
                a.copy_from_slice(s);
                Ok((u64::from_be_bytes(a), 8))
            }
            28..=30 => Err(CborErr::Reserved(at)),
            _ => Ok((0, 0xff)),
        }
    }

    fn item(&mut self, depth: usize) -> Result<Item, CborErr> {
        if depth > MAX_DEPTH {
            return Err(CborErr::TooDeep(self.p));
        }
        let start = self.p;
        let ib = self.byte()?;
        let major = ib >> 5;
        let ai = ib & 0x1f;
        let (n, w) = self.arg(ai, start)?;
        let indef = w == 0xff;
        let mk = |v: V, w: u8, indef: bool, chunks: Vec<(usize, u8)>, end: usize| Item { v, w, indef, chunks, start, end };
        match major {
            0 | 1 => {
                if indef {
                    return Err(CborErr::Reserved(start));
                }
                let v = if major == 0 { V::U(n) } else { V::N(n) };
                Ok(mk(v, w, false, vec![], self.p))
            }
            2 | 3 => {
                if indef {
                    let mut data = Vec::new();
                    let mut chunks = Vec::new();
                    loop {
                        let at = self.p;
                        let cb = self.byte()?;
                        if cb == 0xff {
                            break;
                        }
                        if cb >> 5 != major {
                            return Err(CborErr::BadChunk(at));
                        }
                        let (cn, cw) = self.arg(cb & 0x1f, at)?;
                        if cw == 0xff {
                            return Err(CborErr::BadChunk(at));
                        }
                        let s = self.take(cn)?;
                        data.extend_from_slice(s);
                        chunks.push((cn as usize, cw));
                    }
                    let v = if major == 2 { V::B(data) } else { V::T(data) };
                    Ok(mk(v, 0, true, chunks, self.p))
                } else {
                    let s = self.take(n)?.to_vec();
                    let v = if major == 2 { V::B(s) } else { V::T(s) };
                    Ok(mk(v, w, false, vec![], self.p))
                }
            }
            4 => {
                let mut xs = Vec::new();
                if indef {
                    loop {
                        if self.p >= self.b.len() {
                            return Err(CborErr::Truncated(self.p));
                        }
                        if self.b[self.p] == 0xff {
                            self.p += 1;
                            break;
                        }
                        xs.push(self.item(depth + 1)?);
                    }
                } else {
                    for _ in 0..n {
                        // cheap guard against absurd declared lengths
                        if self.p >= self.b.len() {
                            return Err(CborErr::Truncated(self.p));
                        }
                        xs.push(self.item(depth + 1)?);
                    }
                }
                Ok(mk(V::A(xs), if indef { 0 } else { w }, indef, vec![], self.p))
            }
            5 => {
                let mut xs = Vec::new();
                if indef {
                    loop {
                        if self.p >= self.b.len() {
                            return Err(CborErr::Truncated(self.p));
                        }
                        if self.b[self.p] == 0xff {
                            self.p += 1;
                            break;
                        }
                        let k = self.item(depth + 1)?;
                        if self.p < self.b.len() && self.b[self.p] == 0xff {
                            return Err(CborErr::UnexpectedBreak(self.p));
                        }
                        let v = self.item(depth + 1)?;
                        xs.push((k, v));
                    }
                } else {
                    for _ in 0..n {
                        if self.p >= self.b.len() {
                            return Err(CborErr::Truncated(self.p));
                        }
                        let k = self.item(depth + 1)?;
                        let v = self.item(depth + 1)?;
                        xs.push((k, v));
                    }
                }
                Ok(mk(V::M(xs), if indef { 0 } else { w }, indef, vec![], self.p))
            }
            6 => {
                if indef {
                    return Err(CborErr::Reserved(start));
                }
                let inner = self.item(depth + 1)?;
                Ok(mk(V::Tag(n, Box::new(inner)), w, false, vec![], self.p))
            }
            _ => {
                // major 7
                if indef {
                    return Err(CborErr::UnexpectedBreak(start));
                }
                match w {
                    0 => Ok(mk(V::Simple(n as u8), 0, false, vec![], self.p)),
                    1 => {
                        if n < 32 {
                            Err(CborErr::BadSimple(start))
                        } else {
                            Ok(mk(V::Simple(n as u8), 1, false, vec![], self.p))
                        }
                    }
                    _ => Ok(mk(V::F(w, n), w, false, vec![], self.p)),
                }
            }
        }
    }
}

/// Parse exactly one item that must span the whole input.
pub fn parse(b: &[u8]) -> Result<Item, CborErr> {
    let mut r = Rd { b, p: 0 };
    let it = r.item(0)?;
    if r.p != b.len() {
        return Err(CborErr::Trailing(r.p));
    }
    Ok(it)
}

/// Parse one item from the front; returns it and the number of bytes consumed.
pub fn parse_prefix(b: &[u8]) -> Result<(Item, usize), CborErr> {
    let mut r = Rd { b, p: 0 };
    let it = r.item(0)?;
    let p = r.p;
    Ok((it, p))
}

// ------------------------------------------------------------------------------------------------
// constructors for synthesized items

impl Item {
    pub fn new(v: V) -> Item {
        let w = match &v {
            V::U(n) | V::N(n) => min_width(*n),
            V::B(b) | V::T(b) => min_width(b.len() as u64),
            V::A(x) => min_width(x.len() as u64),
            V::M(x) => min_width(x.len() as u64),
            V::Tag(t, _) => min_width(*t),
            V::Simple(s) => {
                if *s < 24 {
                    0
                } else {
                    1
                }
            }
            V::F(w, _) => *w,
        };
        Item { v, w, indef: false, chunks: vec![], start: 0, end: 0 }
    }
    pub fn u(n: u64) -> Item {
        Item::new(V::U(n))
    }
    pub fn n(n: u64) -> Item {
        Item::new(V::N(n))
    }
    /// signed helper over i128 in CBOR int range
    pub fn int(i: i128) -> Item {
        if i >= 0 {
            Item::u(i as u64)
        } else {
            Item::n((-1 - i) as u64)
        }
    }
    pub fn bytes(b: &[u8]) -> Item {
        Item::new(V::B(b.to_vec()))
    }
    pub fn text(s: &str) -> Item {
        Item::new(V::T(s.as_bytes().to_vec()))
    }
    pub fn arr(xs: Vec<Item>) -> Item {
        Item::new(V::A(xs))
    }
    pub fn map(xs: Vec<(Item, Item)>) -> Item {
        Item::new(V::M(xs))
    }
    pub fn tag(t: u64, inner: Item) -> Item {
        Item::new(V::Tag(t, Box::new(inner)))
    }
    pub fn null() -> Item {
        Item::new(V::Simple(22))
    }
    pub fn indef(mut self) -> Item {
        match &self.v {
            V::A(_) | V::M(_) => {
                self.indef = true;
                self.w = 0;
            }
            V::B(b) | V::T(b) => {
                self.indef = true;
                self.w = 0;
                if self.chunks.is_empty() && !b.is_empty() {
                    self.chunks = vec![(b.len(), min_width(b.len() as u64))];
                }
            }
            _ => {}
        }
        self
    }
    pub fn with_width(mut self, w: u8) -> Item {
        self.w = w;
        self
    }

    pub fn span<'a>(&self, input: &'a [u8]) -> &'a [u8] {
        &input[self.start..self.end]
    }

    pub fn as_u64(&self) -> Option<u64> {
        if let V::U(n) = self.v {
            Some(n)
        } else {
            None
        }
    }
    pub fn as_int(&self) -> Option<i128> {
        match self.v {
            V::U(n) => Some(n as i128),
            V::N(n) => Some(-1 - n as i128),
            _ => None,
        }
    }
    pub fn as_bytes(&self) -> Option<&[u8]> {
        if let V::B(b) = &self.v {
            Some(b)
        } else {
            None
        }
    }
    pub fn as_text(&self) -> Option<&[u8]> {
        if let V::T(b) = &self.v {
            Some(b)
        } else {
            None
        }
    }
    pub fn as_arr(&self) -> Option<&Vec<Item>> {
        if let V::A(x) = &self.v {
            Some(x)
        } else {
            None
        }
    }
    pub fn as_map(&self) -> Option<&Vec<(Item, Item)>> {
        if let V::M(x) = &self.v {
            Some(x)
        } else {
            None
        }
    }
    pub fn as_tag(&self) -> Option<(u64, &Item)> {
        if let V::Tag(t, i) = &self.v {
            Some((*t, i))
        } else {
            None
        }
    }
    pub fn is_null(&self) -> bool {
        matches!(self.v, V::Simple(22))
    }
    /// look up an unsigned-integer key in a map item
    pub fn map_get(&self, key: u64) -> Option<&Item> {
        self.as_map()?.iter().find(|(k, _)| k.as_u64() == Some(key)).map(|(_, v)| v)
    }
    /// Strip a tag if it is `t`
    pub fn untag(&self, t: u64) -> &Item {
        match &self.v {
            V::Tag(tt, i) if *tt == t => i,
            _ => self,
        }
    }

    /// true if this item's own head (not children) is the shortest definite form
    pub fn head_minimal(&self) -> bool {
        if self.indef {
            return false;
        }
        let n = match &self.v {
            V::U(n) | V::N(n) => *n,
            V::B(b) | V::T(b) => b.len() as u64,
            V::A(x) => x.len() as u64,
            V::M(x) => x.len() as u64,
            V::Tag(t, _) => *t,
            V::Simple(_) | V::F(_, _) => return true,
        };
        self.w == min_width(n)
    }

    pub fn depth(&self) -> usize {
        match &self.v {
            V::A(xs) => 1 + xs.iter().map(|x| x.depth()).max().unwrap_or(0),
            V::M(xs) => 1 + xs.iter().map(|(k, v)| k.depth().max(v.depth())).max().unwrap_or(0),
            V::Tag(_, i) => 1 + i.depth(),
            _ => 0,
        }
    }

    pub fn count(&self) -> usize {
        match &self.v {
            V::A(xs) => 1 + xs.iter().map(|x| x.count()).sum::<usize>(),
            V::M(xs) => 1 + xs.iter().map(|(k, v)| k.count() + v.count()).sum::<usize>(),
            V::Tag(_, i) => 1 + i.count(),
            _ => 1,
        }
    }
}

// ------------------------------------------------------------------------------------------------
// writer

pub fn write_head(out: &mut Vec<u8>, major: u8, n: u64, w: u8) {
    // widen if the requested width cannot hold n
    let mw = min_width(n);
    let w = if w < mw || ![0u8, 1, 2, 4, 8].contains(&w) { mw } else { w };
    let m = major << 5;
    match w {
        0 => out.push(m | n as u8),
        1 => {
            out.push(m | 24);
            out.push(n as u8);
        }
        2 => {
            out.push(m | 25);
            out.extend_from_slice(&(n as u16).to_be_bytes());
        }
        4 => {
            out.push(m | 26);
            out.extend_from_slice(&(n as u32).to_be_bytes());
        }
        _ => {
            out.push(m | 27);
            out.extend_from_slice(&n.to_be_bytes());
        }
    }
}

pub fn write(it: &Item, out: &mut Vec<u8>) {
    match &it.v {
        V::U(n) => write_head(out, 0, *n, it.w),
        V::N(n) => write_head(out, 1, *n, it.w),
        V::B(b) | V::T(b) => {
            let major = if matches!(it.v, V::B(_)) { 2 } else { 3 };
            if it.indef {
                out.push((major << 5) | 31);
                let mut p = 0usize;
                for (len, w) in &it.chunks {
                    let len = (*len).min(b.len() - p);
                    write_head(out, major, len as u64, *w);
                    out.extend_from_slice(&b[p..p + len]);
                    p += len;
                }
                if p < b.len() {
                    write_head(out, major, (b.len() - p) as u64, 0);
                    out.extend_from_slice(&b[p..]);
                }
                out.push(0xff);
            } else {
                write_head(out, major, b.len() as u64, it.w);
                out.extend_from_slice(b);
            }
        }
        V::A(xs) => {
            if it.indef {
                out.push(0x9f);
            } else {
                write_head(out, 4, xs.len() as u64, it.w);
            }
            for x in xs {
                write(x, out);
            }
            if it.indef {
                out.push(0xff);
            }
        }
        V::M(xs) => {
            if it.indef {
                out.push(0xbf);
            } else {
                write_head(out, 5, xs.len() as u64, it.w);
            }
            for (k, v) in xs {
                write(k, out);
                write(v, out);
            }
            if it.indef {
                out.push(0xff);
            }
        }
        V::Tag(t, inner) => {
            write_head(out, 6, *t, it.w);
            write(inner, out);
        }
        V::Simple(s) => {
            if *s < 24 && it.w == 0 {
                out.push(0xe0 | *s);
            } else {
                out.push(0xf8);
                out.push(*s);
            }
        }
        V::F(w, bits) => match w {
            2 => {
                out.push(0xf9);
                out.extend_from_slice(&(*bits as u16).to_be_bytes());
            }
            4 => {
                out.push(0xfa);
                out.extend_from_slice(&(*bits as u32).to_be_bytes());
            }
            _ => {
                out.push(0xfb);
                out.extend_from_slice(&bits.to_be_bytes());
            }
        },
    }
}

pub fn to_vec(it: &Item) -> Vec<u8> {
    let mut v = Vec::new();
    write(it, &mut v);
    v
}

/// Canonical key order of RFC 7049 section 3.9 on *encoded* keys: shorter first, then bytewise.
pub fn canonical_key_cmp(a: &[u8], b: &[u8]) -> std::cmp::Ordering {
    a.len().cmp(&b.len()).then_with(|| a.cmp(b))
}

/// Semantic equality ignoring encoding choices (widths, indefinite, chunking), keeping order.
pub fn same_value(a: &Item, b: &Item) -> bool {
    match (&a.v, &b.v) {
        (V::U(x), V::U(y)) | (V::N(x), V::N(y)) => x == y,
        (V::B(x), V::B(y)) | (V::T(x), V::T(y)) => x == y,
        (V::A(x), V::A(y)) => x.len() == y.len() && x.iter().zip(y).all(|(p, q)| same_value(p, q)),
        (V::M(x), V::M(y)) => {
            x.len() == y.len() && x.iter().zip(y).all(|((k1, v1), (k2, v2))| same_value(k1, k2) && same_value(v1, v2))
        }
        (V::Tag(t, x), V::Tag(u, y)) => t == u && same_value(x, y),
        (V::Simple(x), V::Simple(y)) => x == y,
        (V::F(w1, b1), V::F(w2, b2)) => w1 == w2 && b1 == b2,
        _ => false,
    }
}

#[cfg(test)]
mod tests {
    use super::*;
    fn h(s: &str) -> Vec<u8> {
        (0..s.len()).step_by(2).map(|i| u8::from_str_radix(&s[i..i + 2], 16).unwrap()).collect()
    }
    #[test]
    fn rfc_vectors_roundtrip() {
        // RFC 8949 appendix A (well-formed examples)
        let ok = [
            "00", "01", "0a", "17", "1818", "1819", "1864", "1903e8", "1a000f4240", "1b000000e8d4a51000",
            "1bffffffffffffffff", "c249010000000000000000", "3bffffffffffffffff", "c349010000000000000000",
            "20", "29", "3863", "3903e7", "f90000", "f98000", "f93c00", "fb3ff199999999999a", "f93e00",
            "f97bff", "fa47c35000", "fa7f7fffff", "fb7e37e43c8800759c", "f90001", "f90400", "f9c400",
            "fbc010666666666666", "f97c00", "f97e00", "f9fc00", "fa7f800000", "fa7fc00000", "faff800000",
            "fb7ff0000000000000", "fb7ff8000000000000", "fbfff0000000000000", "f4", "f5", "f6", "f7", "f0",
            "f8ff", "c074323031332d30332d32315432303a30343a30305a", "c11a514b67b0", "c1fb41d452d9ec200000",
            "d74401020304", "d818456449455446", "d82076687474703a2f2f7777772e6578616d706c652e636f6d", "40",
            "4401020304", "60", "6161", "6449455446", "62225c", "62c3bc", "63e6b0b4", "64f0908591", "80",
            "83010203", "8301820203820405", "98190102030405060708090a0b0c0d0e0f101112131415161718181819",
            "a0", "a201020304", "a26161016162820203", "826161a161626163",
            "a56161614161626142616361436164614461656145", "5f42010243030405ff", "7f657374726561646d696e67ff",
            "9fff", "9f018202039f0405ffff", "9f01820203820405ff", "83018202039f0405ff", "83019f0203ff820405",
            "9f0102030405060708090a0b0c0d0e0f101112131415161718181819ff", "bf61610161629f0203ffff",
            "826161bf61626163ff", "bf6346756ef563416d7421ff",
        ];
        for s in ok {
            let b = h(s);
            let it = parse(&b).unwrap_or_else(|e| panic!("{} -> {:?}", s, e));
            assert_eq!(to_vec(&it), b, "{}", s);
            assert_eq!((it.start, it.end), (0, b.len()));
        }
        // not well-formed (RFC 8949 appendix F)
        let bad = [
            "18", "19", "1a", "1b", "1901", "1a0102", "1b01020304050607", "38", "58", "78", "98", "9a01ff00",
            "b8", "d8", "f8", "f900", "fa0000", "fb000000", "41", "61", "5affffffff00", "5bffffffffffffffff010203",
            "7affffffff00", "7b7fffffffffffffff010203", "81", "818181818181818181", "8200", "a1", "a20102",
            "a100", "a2000000", "c0", "5f4100", "7f6100", "9f", "9f0102", "bf", "bf01020102", "819f", "9f8000",
            "9f9f9f9f9fffffffff", "9f819f819f9fffffff", "1c", "1d", "1e", "3c", "3d", "3e", "5c", "5d", "5e", "7c",
            "7d", "7e", "9c", "9d", "9e", "bc", "bd", "be", "dc", "dd", "de", "fc", "fd", "fe", "f800", "f801",
            "f818", "f81f", "5f00ff", "5f21ff", "5f6100ff", "5f80ff", "5fa0ff", "5fc000ff", "5fe0ff", "7f4100ff",
            "5f5f4100ffff", "7f7f6100ffff", "ff", "81ff", "8200ff", "a1ff", "a1ff00", "a100ff", "a20000ff",
            "9f81ff", "9f829f819f9fffffffff", "bf00ff", "bf000000ff", "1f", "3f", "df",
        ];
        for s in bad {
            assert!(parse(&h(s)).is_err(), "{} should be rejected", s);
        }
    }
    #[test]
    fn spans_and_widths() {
        let b = h("a20018180182190100f6");
        let it = parse(&b).unwrap();
        let m = it.as_map().unwrap();
        assert_eq!(m[0].1.w, 1);
        assert!(m[0].1.head_minimal());
        let a = m[1].1.as_arr().unwrap();
        assert_eq!(a[0].span(&b), &h("190100")[..]);
        assert!(a[1].is_null());
        let nm = h("1817");
        assert!(!parse(&nm).unwrap().head_minimal());
    }
}
